"""C16 — Sync finds the first plausible packet header and leaves the reader on it.
Cases: io.sync <stream> <terminal error 50=EOF|60=reader error> <bufio size> <underlying reader mode>
         model: Sync over the reader ORACLE; real: Sync over bufio.Reader over a fragmenting reader
       io.syncb <read script> <bufio size>
         model: Sync over the MODEL of bufio.Reader (Model/Bufio.v) over the scripted reader;
         real: Sync over the real bufio.NewReaderSize over the same script.
       bufio.ops <read script> <bufio size> <ops>
         the bufio MODEL against the real bufio.Reader call by call (ReadByte/UnreadByte/Peek n/Read k); fidelity only."""
from vlib import Case, hx, parse_val

PROP = "C16"
PROOF_FILES = ["Properties/C16.v", "Properties/ModelTie.v"]
RULE = ("streams = garbage prefix containing 0..5 false sync bytes (0x47 followed by a header with AFC=00 or PID in 4..15, "
        "0x47 runs, 0x47 inside the last three bytes) + optionally a plausible header and packets, or cut by end of stream "
        "1..3 bytes after a 0x47; every stream is run over bufio sizes 16..4096 on top of one-byte / half / full / "
        "data-with-error underlying readers, with io.EOF or a reader error as terminal error; all 4-byte header classes "
        "(sync/non-sync x AFC x PID class) at offsets 0..4 are enumerated completely; the same streams as read scripts "
        "(chunks of 1,2,3,5,7,16,17,47 bytes, random cuts, one chunk; EOF or error with or after the last data) through the "
        "bufio model and the real bufio.Reader with sizes 0(=16),16,17,20,32,188,4096 (op io.syncb), also with zero-length "
        "reads interleaved; 99/100/101 consecutive zero-length reads (io.ErrNoProgress) and random ReadByte/UnreadByte/Peek/Read "
        "call sequences on the bufio model vs the real bufio.Reader (op bufio.ops) as fidelity cases; non-trivial = the stream contains at least one 0x47 (the unread/peek "
        "path is taken)")
EXHAUSTIVE = False
EXHAUSTIVE_NOTE = ("the header classes (first byte 0x47/other x AFC 0..3 x PID in {0,3,4,5,15,16,0x1fff}) x offset 0..4 x false-sync "
                   "count 0..5 are enumerated completely on every run; the stream space is covered by the theorems")
ASSUMPTIONS = [
    "reader oracle: bufio.Reader over an io.Reader that delivers a finite byte string and then a sticky terminal error "
    "(io.EOF or another error); ReadByte/UnreadByte/Peek(4) behave as documented for bufio (Peek fails with the terminal "
    "error when fewer than 4 bytes remain; UnreadByte succeeds after a successful ReadByte; buffer size >= 16 so "
    "ErrBufferFull cannot occur); the oracle is independent of buffer size and fragmentation, goexec varies both",
    "the oracle contract is PROVED of a transcription of bufio.Reader (Model/Bufio.v: fill, readErr, ReadByte, UnreadByte, "
    "Peek of Go 1.23) for every buffer size and every read script with fewer than 100 zero-length reads in a row "
    "(C16_sync_over_bufio); that "
    "transcription (incl. Read + io.ReadFull for the bytes read after Sync) is compared with the real bufio.Reader on every run (io.syncb), also on scripts with zero-length reads",
    "underlying io.Reader: finite script, sticky error, never more than len(p) bytes per Read (as in C18)",
    "int64 offset does not overflow (streams shorter than 2^63 bytes)",
    "theorems quantify over all lists of bytes (< 256) and all terminal errors",
]
SYNC = 0x47
MODES = (0, 1, 2, 3)
SIZES = (16, 17, 31, 32, 187, 188, 189, 512, 4096)


def plausible(b, i):
    if i + 4 > len(b) or b[i] != SYNC:
        return False
    afc = (b[i + 3] >> 4) & 3
    pid = ((b[i + 1] & 0x1f) << 8) | b[i + 2]
    return afc != 0 and not (4 <= pid <= 15)


def first_plausible(b):
    for i in range(len(b)):
        if plausible(b, i):
            return i
    return None


def proj(reply):
    """the property determines: on success offset and the next 188 bytes; on failure the error only"""
    v = parse_val(reply)
    if isinstance(v, list) and v and v[0] == 1:
        return [1, v[1]]
    return v


def mk(data, terr, size, mode, kind, decides=True):
    data = bytes(data)
    nt = SYNC in data
    th = "C16_sync_first_plausible" if first_plausible(data) is not None else (
        "C16_sync_not_found" if terr == 50 else "C16_sync_reader_error")
    return Case("io.sync %s %d %d %d" % (hx(data), terr, size, mode), kind=kind, decides=decides,
                nontrivial=nt and decides, theorem=th, proj=proj if decides else None)


def header(rng, ok=True, pid=None, afc=None):
    """a 4-byte header, plausible or not"""
    if ok:
        pid = pid if pid is not None else rng.choice([0, 1, 3, 16, 17, 0x100, 0x1ffe, 0x1fff, rng.randrange(16, 0x2000)])
        afc = afc if afc is not None else rng.randrange(1, 4)
    else:
        if rng.random() < 0.5:
            pid = rng.randrange(0x2000); afc = 0
        else:
            pid = rng.randrange(4, 16); afc = rng.randrange(0, 4)
    b1 = (rng.randrange(8) << 5) | (pid >> 8)
    b3 = (rng.randrange(4) << 6) | (afc << 4) | rng.randrange(16)
    return bytes([SYNC, b1, pid & 0xff, b3])


def garbage(rng, n, nosync=True):
    out = bytearray(rng.randrange(256) for _ in range(n))
    if nosync:
        for i in range(n):
            if out[i] == SYNC:
                out[i] = 0x48
    return bytes(out)


def false_sync(rng):
    """a 0x47 that is not a plausible header, in one of the shapes the scan loop distinguishes"""
    k = rng.randrange(5)
    if k == 0:
        return header(rng, ok=False)                      # full implausible header
    if k == 1:
        return bytes([SYNC]) + header(rng, ok=False)      # 0x47 directly before another false one
    if k == 2:
        return bytes([SYNC, SYNC, SYNC])                  # run of sync bytes (PID 0x0747.. depends on what follows)
    if k == 3:
        h = header(rng, ok=False)
        return h[:1] + garbage(rng, 1) + h[2:]            # may turn plausible: classification is by first_plausible
    return header(rng, ok=False)[:rng.randrange(1, 4)] + garbage(rng, rng.randrange(0, 3))


def stream(rng, nfalse, tail, maxgarb):
    """tail: 'packet' | 'packets' | 'none' | 'cut1' | 'cut2' | 'cut3' | 'hdronly'"""
    out = bytearray()
    out += garbage(rng, rng.randrange(0, maxgarb + 1))
    for _ in range(nfalse):
        out += false_sync(rng)
        out += garbage(rng, rng.randrange(0, min(maxgarb, 6) + 1))
    if tail == "packet":
        out += header(rng) + garbage(rng, 184, nosync=False)
    elif tail == "packets":
        for _ in range(rng.randrange(2, 4)):
            out += header(rng) + garbage(rng, 184, nosync=False)
        out += garbage(rng, rng.randrange(0, 50), nosync=False)
    elif tail == "hdronly":
        out += header(rng)
    elif tail.startswith("cut"):
        out += header(rng)[:int(tail[3])]
    return bytes(out)


BSIZES = (0, 16, 17, 20, 32, 188, 4096)
BFRAGS = ("whole", 1, 2, 3, 5, 7, 16, 17, 47, "random")
BTERMS = ("end", "eof-with-data", "err-with-data", "err-after")


def bscript(rng, data, frag, term, empties=0.0):
    n = len(data)
    if frag == "whole":
        chunks = [data] if n else []
    elif frag == "random":
        cuts = sorted(rng.randrange(n + 1) for _ in range(rng.randrange(1, 10))) if n else []
        pts = [0] + cuts + [n]
        chunks = [data[a:b] for a, b in zip(pts, pts[1:]) if b > a]
    else:
        chunks = [data[i:i + frag] for i in range(0, n, frag)]
    sc = []
    for c in chunks:
        while empties and rng.random() < empties:
            sc.append((b"", 0))
        sc.append((c, 0))
    terr = 60 if term.startswith("err") else 50
    if term in ("eof-with-data", "err-with-data") and sc:
        sc[-1] = (sc[-1][0], terr)
    elif term != "end" or terr == 60:
        sc.append((b"", terr))
    return sc


def mkb(sc, size, kind, decides=True):
    data = b"".join(c for c, _ in sc)
    line = "io.syncb [ %s ] %d" % (" ".join("[ %s %d ]" % (hx(c), e) for c, e in sc), size)
    th = "C16_sync_over_bufio"
    return Case(line, kind=kind, decides=decides, nontrivial=decides and SYNC in data, theorem=th,
                proj=proj if decides else None)


def gen_bufio(rng, tier):
    """Sync over the MODEL of bufio.Reader vs the real bufio.Reader, same read script"""
    out = []
    tails = ["packet", "none", "cut1", "cut2", "cut3", "hdronly"]
    n = 700 if tier == "quick" else 30000
    for k in range(n):
        data = stream(rng, rng.randrange(0, 5), rng.choice(tails), rng.choice([0, 1, 3, 10, 40, 200]))
        frag = rng.choice(BFRAGS); term = rng.choice(BTERMS); size = rng.choice(BSIZES)
        out.append(mkb(bscript(rng, data, frag, term), size, "bufio-%s" % (frag if isinstance(frag, str) else "n")))
        if k % 5 == 0:
            # zero-length reads ((0, nil) results), fewer than 100 in a row: inside the refinement theorem
            out.append(mkb(bscript(rng, data, frag, term, empties=0.3), size, "bufio-empty-reads"))
    # io.ErrNoProgress after 100 consecutive empty reads: outside the theorem's hypothesis (fidelity)
    for m in (99, 100, 101):
        sc = [(b"\x11\x22", 0)] + [(b"", 0)] * m + [(bytes([SYNC, 0, 0, 0x10]) + bytes(184), 0)]
        out.append(mkb(sc, 16, "fidelity-bufio-noprogress", decides=False))
    return out


def mkops(sc, size, ops, kind="fidelity-bufio-ops"):
    line = "bufio.ops [ %s ] %d [ %s ]" % (" ".join("[ %s %d ]" % (hx(c), e) for c, e in sc), size,
                                             " ".join("[ %s ]" % " ".join(str(x) for x in o) for o in ops))
    return Case(line, kind=kind, decides=False, nontrivial=False, theorem="C16_sync_over_bufio")


def gen_bufio_ops(rng, tier):
    """the transcription of bufio.Reader (Model/Bufio.v) against the real one, call by call, on every branch:
    ReadByte / UnreadByte (also after a failed ReadByte, twice in a row, after Peek) / Peek n (0..size+2) /
    Read k (0, small, >= buffer size: the direct-read path).  Fidelity only: bufio is not gots."""
    out = []
    for _ in range(500 if tier == "quick" else 20000):
        data = bytes(rng.randrange(256) for _ in range(rng.choice([0, 1, 3, 15, 16, 17, 40, 100])))
        frag = rng.choice(BFRAGS); term = rng.choice(BTERMS)
        sc = bscript(rng, data, frag, term, empties=rng.choice([0.0, 0.0, 0.3]))
        if rng.random() < 0.1 and sc:
            j = rng.randrange(len(sc))
            sc[j] = (sc[j][0], rng.choice([50, 60]))
        size = rng.choice([0, 16, 17, 20, 32])
        cap = max(size, 16)
        ops = []
        for _ in range(rng.randrange(1, 40)):
            r = rng.random()
            if r < 0.45:
                ops.append((0,))
            elif r < 0.65:
                ops.append((1,))
            elif r < 0.85:
                ops.append((2, rng.choice([0, 1, 4, 4, cap - 1, cap, cap + 1, cap + 2, rng.randrange(0, cap + 1)])))
            else:
                ops.append((3, rng.choice([0, 1, 3, cap - 1, cap, cap + 5, 2 * cap, rng.randrange(0, 2 * cap)])))
        out.append(mkops(sc, size, ops))
    # targeted: UnreadByte after a failed ReadByte (bufio's r == 0 && w == 0 branch), double UnreadByte, after Peek
    for term in BTERMS:
        sc = bscript(rng, b"\x01\x02", 1, term)
        out.append(mkops(sc, 16, [(0,), (0,), (0,), (1,), (0,), (0,), (1,), (1,), (2, 1), (1,), (0,)]))
        out.append(mkops(sc, 16, [(1,), (2, 4), (0,), (1,), (2, 2), (3, 1), (1,), (0,), (0,), (0,)]))
    return out


def gen(rng, tier):
    out = gen_bufio(rng, tier) + gen_bufio_ops(rng, tier)
    # 1. complete enumeration: header classes x offset x number of false syncs, smallest buffers, every mode
    pids = [0, 3, 4, 5, 15, 16, 0x1fff]
    for first in (SYNC, 0x46):
        for afc in range(4):
            for pid in pids:
                h = bytes([first, 0x40 | (pid >> 8), pid & 0xff, (afc << 4) | 7])
                for offn in range(5):
                    for nf in range(6):
                        pre = bytes([0x11] * offn) + bytes([SYNC, 0x00, 0x00, 0x00] * nf)
                        data = pre + h + bytes(range(184))
                        mode = (offn + nf + afc) % 4
                        out.append(mk(data, 50, 16, mode, "class-grid"))
    # headers cut by end of stream, with both kinds of terminal error, every mode
    for cut in range(1, 4):
        for nf in range(0, 4):
            for terr in (50, 60):
                for mode in MODES:
                    data = bytes([0x22] * nf) + bytes([SYNC, 0x00, 0x00, 0x00] * nf) + bytes([SYNC, 0x01, 0x00, 0x10])[:cut]
                    out.append(mk(data, terr, 16, mode, "cut-grid"))
    for terr in (50, 60):
        for mode in MODES:
            out.append(mk(b"", terr, 16, mode, "empty"))
            out.append(mk(bytes([SYNC]) * 7, terr, 16, mode, "sync-run"))
            out.append(mk(bytes([SYNC]) * 7 + bytes([0x01, 0x00, 0x10]) + bytes(184), terr, 16, mode, "sync-run"))
    # the probe of DESIGN section 7 (F1)
    out.append(mk(bytes.fromhex("47000000" "47000010") + bytes(184), 50, 4096, 2, "f1-probe"))
    # 2. random structured streams
    n = 1500 if tier == "quick" else 60000
    tails = ["packet", "packets", "none", "cut1", "cut2", "cut3", "hdronly"]
    for k in range(n):
        nfalse = rng.randrange(0, 6)
        tail = rng.choice(tails) if rng.random() < 0.6 else "packet"
        big = rng.random() < (0.08 if tier == "quick" else 0.15)
        maxgarb = rng.choice([0, 1, 3, 10, 40]) if not big else rng.choice([200, 1000, 5000])
        data = stream(rng, nfalse, tail, maxgarb)
        terr = 50 if rng.random() < 0.7 else 60
        size = rng.choice(SIZES) if rng.random() < 0.7 else rng.randrange(16, 4097)
        mode = rng.choice(MODES)
        fp = first_plausible(data)
        kind = ("found" if fp is not None else "notfound") + "-f%d" % min(nfalse, 5) + ("-big" if big else "")
        out.append(mk(data, terr, size, mode, kind))
        if fp is None and k % 3 == 0:
            # fidelity: on failure also the returned offset and what is left in the reader
            out.append(mk(data, terr, size, mode, "fidelity-error-offset", decides=False))
    # 3. pure random bytes over a tiny alphabet (many accidental sync patterns)
    for _ in range(300 if tier == "quick" else 20000):
        alpha = [SYNC, SYNC, 0x00, 0x10, 0x1f, 0x04, 0x0f, 0x30, rng.randrange(256)]
        data = bytes(rng.choice(alpha) for _ in range(rng.randrange(0, 40)))
        if rng.random() < 0.5:
            data += bytes(188)
        out.append(mk(data, rng.choice([50, 60]), rng.choice(SIZES), rng.choice(MODES), "alphabet"))
    return out


def _bparts(c):
    v = parse_val("[" + c.line.partition(" ")[2] + "]")
    return [(bytes(ch), e) for ch, e in v[0]], v[1]


def _parts(c):
    f = c.line.split()
    return bytes.fromhex(f[1][1:]), int(f[2]), int(f[3]), int(f[4])


def shrink_b(c):
    sc, size = _bparts(c)
    for i in range(min(len(sc), 40)):
        yield mkb(sc[:i] + sc[i + 1:], size, c.kind, c.decides)
    for i in range(min(len(sc) - 1, 40)):
        if sc[i][1] == 0:
            yield mkb(sc[:i] + [(sc[i][0] + sc[i + 1][0], sc[i + 1][1])] + sc[i + 2:], size, c.kind, c.decides)
    for i in range(min(len(sc), 40)):
        if len(sc[i][0]) > 1:
            yield mkb(sc[:i] + [(sc[i][0][1:], sc[i][1])] + sc[i + 1:], size, c.kind, c.decides)
            yield mkb(sc[:i] + [(sc[i][0][:-1], sc[i][1])] + sc[i + 1:], size, c.kind, c.decides)
    if size != 16:
        yield mkb(sc, 16, c.kind, c.decides)


def _oparts(c):
    v = parse_val("[" + c.line.partition(" ")[2] + "]")
    return [(bytes(ch), e) for ch, e in v[0]], v[1], [tuple(o) for o in v[2]]


def shrink(c):
    if c.line.startswith("bufio.ops"):
        sc, size, ops = _oparts(c)
        for i in range(len(ops)):
            yield mkops(sc, size, ops[:i] + ops[i + 1:], c.kind)
        for i in range(min(len(sc), 30)):
            yield mkops(sc[:i] + sc[i + 1:], size, ops, c.kind)
        return
    if c.line.startswith("io.syncb"):
        yield from shrink_b(c)
        return
    data, terr, size, mode = _parts(c)
    cands = []
    if mode != 2:
        cands.append((data, terr, size, 2))
    if size != 16:
        cands.append((data, terr, 16, mode))
    n = len(data)
    for cut in (n // 2, n // 4, 188, 16, 4, 1):
        if 0 < cut < n:
            cands.append((data[:n - cut], terr, size, mode))
            cands.append((data[cut:], terr, size, mode))
    for i in range(min(n, 24)):
        cands.append((data[:i] + data[i + 1:], terr, size, mode))
        if data[i] not in (0, SYNC):
            cands.append((data[:i] + b"\x00" + data[i + 1:], terr, size, mode))
    seen = set()
    for d, t, s, m in cands:
        if (d, t, s, m) not in seen and (d, t, s, m) != (data, terr, size, mode):
            seen.add((d, t, s, m))
            yield mk(d, t, s, m, c.kind)


def search(c, rng):
    if c.line.startswith("io.syncb") or c.line.startswith("bufio.ops"):
        for c2 in gen_bufio(rng, "quick")[:300]:
            if c2.decides:
                yield c2
        return
    data, terr, size, mode = _parts(c)
    for nf in range(0, 4):
        for m in MODES:
            yield mk(bytes([SYNC, 0, 0, 0] * nf) + bytes([SYNC, 0, 0, 0x10]) + bytes(184), 50, size, m, "search")
            yield mk(bytes([SYNC, 0, 0, 0] * nf) + data, terr, size, m, "search")


def case_of_line(line, kind):
    if line.startswith("bufio.ops"):
        sc, size, ops = _oparts(Case(line))
        return mkops(sc, size, ops, kind or "fidelity-bufio-ops")
    if line.startswith("io.syncb"):
        sc, size = _bparts(Case(line))
        return mkb(sc, size, kind or "replay", decides=not (kind or "").startswith("fidelity"))
    f = line.split()
    return mk(bytes.fromhex(f[1][1:]), int(f[2]), int(f[3]), int(f[4]), kind or "replay",
              decides=not kind.startswith("fidelity"))


LEVEL_TEXT = ("Proof: Coq theorems (Properties/C16.v) over a model of Sync/IsSynced (repaired per F1) running against a reader "
              "oracle with bufio semantics: for ALL byte streams and all terminal errors the result is the least index holding "
              "a plausible header with the reader positioned exactly there (the next 188 bytes read are the packet), "
              "sync-not-found when there is none before EOF, the reader's own error otherwise; never Panic/Diverge. By "
              "induction on the stream, no axioms. The oracle is discharged for a model of bufio.Reader: Sync over that model, "
              "for every buffer size and every fragmentation of the underlying reader, is proved to behave as over the oracle. "
              "Tied to /repo on every run by executing model and real Sync over bufio.Reader sizes 16..4096 on "
              "one-byte/half/full/data+error underlying readers, and the bufio model against the real bufio.Reader.")
LEVEL_NOTE = ("Trusted: Coq kernel; the transcriptions Model/IO.v and Model/Bufio.v (the latter of Go's bufio, window "
              "representation of the buffer array; both exercised against the real code on every run); extraction and glue.")
TECHNIQUE = "Coq proof by induction on the stream over a bufio reader oracle + model/implementation correspondence over buffer sizes and fragmentations"


# coverage round (notes/coverage.md): cases and support theorems for exported identifiers outside the property text
from gen import covlib
covlib.install(globals())
