"""C13 — ComputeCRC is CRC-32/MPEG-2 on every input.
Three observations per input b: `crc b` (model of tsutils.go vs real), `crc.spec b` (textbook register of
Spec/Crc32.v vs real), `crc.residue b` (ComputeCRC(b ++ ComputeCRC(b)), must be 00000000); every real reply is
additionally compared with an independent table-driven CRC-32/MPEG-2 written here."""
import vlib
from vlib import Case, hx, unhx

PROP = "C13"
REAL_ONLY_OPS = ("crc.emit.",)   # ops that run the real emitters only; judged by oracle() against the receiver check
PROOF_FILES = ["Properties/C13.v", "Properties/C13tie.v"]
RULE = ("byte strings through ComputeCRC: all strings of length 0..2 (65 793, complete); single-bit strings (one bit set, "
        "rest zero) and all-zero strings; one random string of every length 0..1024; random strings up to 4 KiB and a few up to 64 KiB; known-answer vectors; residue calls; the real emitters (FilterPMTPacketsToPids on generated PMTs of 1..27 streams in 1..3 packets, "
        "SCTE35.UpdateData on generated splice_null / time_signal / splice_insert messages with 0..3 segmentation descriptors) whose output "
        "sections are put through the receivers' CRC check; a case is "
        "non-trivial when it is a distinct request line (every byte string is inside the property's domain)")
EXHAUSTIVE = True
EXHAUSTIVE_NOTE = ("lengths 0..2 are enumerated completely on every run. Single-bit strings: the op crc.singles L compares ComputeCRC on ALL 8L "
                   "single-bit strings of L bytes with the linear-time table Crc32.singles_fast (theorem C13_single_bit_all): thorough = every "
                   "L in 0..1024, i.e. every single-bit string up to 1024 bytes (4 198 400 strings); quick = L in 0..64, 128, 183, 184, 188, 256, "
                   "512, 1024 (28 752 strings). Additionally, string by string through the model of the code: quick = every bit position for "
                   "lengths 1..24, plus 64 positions per length class up to 1024; thorough = every bit position of every "
                   "length 1..64 and of the lengths 188 and 1024 (so every distance-from-the-end 1..8192 occurs), "
                   "first/last/8 random positions for every other length up to 1024, and the all-zero string of every length "
                   "0..1024. The unbounded domain is covered by theorem C13_compute_crc_is_mpeg2.")
ASSUMPTIONS = ["Go uint32 shifts/xor as written out in Model/Crc.v; encoding/binary.BigEndian.PutUint32 is big-endian"]

POLY = 0x04C11DB7
TABLE = []
for _i in range(256):
    _r = _i << 24
    for _ in range(8):
        _r = ((_r << 1) ^ POLY) & 0xFFFFFFFF if _r & 0x80000000 else (_r << 1) & 0xFFFFFFFF
    TABLE.append(_r)


def table_crc(data):
    """independent table-driven CRC-32/MPEG-2 (byte-at-a-time, init FFFFFFFF, no reflection, no final xor)"""
    r = 0xFFFFFFFF
    for b in data:
        r = ((r << 8) & 0xFFFFFFFF) ^ TABLE[(r >> 24) ^ b]
    return r


def single(length, bitpos):
    b = bytearray(length)
    b[bitpos // 8] = 0x80 >> (bitpos % 8)
    return bytes(b)


BORROWS = ["C14", "C09"]


def _gen_emitted(rng, tier):
    """clause "every section the library emits (filtered PMT, encoded splice_info_section) satisfies it": the emitting
    operations of C14 (pmt.filter) and C09 (scte.build / scte.reencode) on their own generated inputs, judged by their
    oracles, which compare the emitted bytes - CRC_32 included - with the Spec serialisation"""
    import random as _r, importlib
    out = []
    for name, keep, th in (("c14", lambda c: c.decides and c.kind.startswith("filter-"), "C13tie_filter_emits_mpeg2_crc (C13_emitted_section_residue_ok + C14_filter_spec)"),
                           ("c09", lambda c: c.decides, "C13tie_update_data_residue_zero (C13_emitted_section_residue_ok + C09_crc_clause)")):
        try:
            m = importlib.import_module("gen." + name)
        except ImportError:
            continue
        sub = _r.Random(rng.randrange(1 << 62))
        out += vlib.borrow(m, m.gen(sub, tier), "emitted", keep=keep, theorem=th)
    return out


TRUSTED_EXTRA = []
AUDIT = {}


def coqchk_audit():
    """thorough tier (DESIGN section 4): coqchk -silent -o on this property's compiled theorems; the context summary goes
    into the evidence; anything but 'Axioms: <none>' becomes a failing case of kind coqchk-audit"""
    rc, out = vlib.sh("timeout 1500 coqchk -silent -o -Q theories Gots Gots.Properties.C13", cwd=vlib.COQ, timeout=1600)
    i = out.find("CONTEXT SUMMARY")
    summary = " ".join(out[i:].split()) if i >= 0 else out[-500:]
    ok = (rc == 0 and "* Axioms: <none>" in out and "type-in-type: <none>" in out
          and "unsafe (co)fixpoints: <none>" in out and "positivity is assumed: <none>" in out)
    del TRUSTED_EXTRA[:]
    TRUSTED_EXTRA.append("coqchk -silent -o Gots.Properties.C13 (this run): " + summary)
    AUDIT["ok"], AUDIT["text"] = ok, summary
    return ok


def be32(x):
    return x.to_bytes(4, "big")


def pmt_packets(rng, pid, streams, prog_info, pointer=0, version=1):
    """a PMT section (ISO 13818-1 2.4.4.8) with a correct CRC, packetised into 188-byte packets of PID pid"""
    pcr_pid = streams[0][1] if streams else 0x1fff
    body = bytes([0, 1, 0xC1 | (version << 1), 0, 0, 0xE0 | (pcr_pid >> 8), pcr_pid & 0xff,
                  0xF0 | (len(prog_info) >> 8), len(prog_info) & 0xff]) + prog_info
    for (st, epid, info) in streams:
        body += bytes([st, 0xE0 | (epid >> 8), epid & 0xff, 0xF0 | (len(info) >> 8), len(info) & 0xff]) + info
    sl = len(body) + 4
    sec = bytes([0x02, 0xB0 | (sl >> 8), sl & 0xff]) + body
    sec += be32(table_crc(sec))
    payload = bytes([pointer]) + b"\xff" * pointer + sec
    pkts = b""
    cc = 0
    first = True
    while payload or first:
        chunk, payload = payload[:184], payload[184:]
        chunk = chunk + b"\xff" * (184 - len(chunk))
        pkts += bytes([0x47, (0x40 if first else 0) | (pid >> 8), pid & 0xff, 0x10 | cc]) + chunk
        cc = (cc + 1) & 15
        first = False
    return pkts


def desc_loop(rng, n):
    """n well-formed descriptors (tag, length, body)"""
    out = b""
    for _ in range(n):
        body = bytes(rng.randrange(256) for _ in range(rng.choice((0, 1, 3, 4, 4, 8))))
        out += bytes([rng.choice((0x0a, 0x05, 0x52, 0x0e, 0x86, 0xcc, rng.randrange(256))), len(body)]) + body
    return out


def emitter_cases(rng, tier):
    """the real emitters: FilterPMTPacketsToPids and SCTE35.UpdateData; what they return is judged by residue_check"""
    out = []
    n = 150 if tier == "quick" else 4000
    for i in range(n):
        ns = rng.randrange(1, 9 if i % 5 else 28)
        pids = rng.sample(range(0x20, 0x1ffe), ns)
        streams = []
        for epid in pids:
            info = desc_loop(rng, rng.choice((0, 0, 1, 1, 2, 4)))
            streams.append((rng.choice((0x02, 0x1b, 0x24, 0x0f, 0x81, 0x86, 0x06, rng.randrange(256))), epid, info))
        prog_info = desc_loop(rng, rng.choice((0, 0, 1, 2)))
        pmt_pid = rng.randrange(0x20, 0x1ffe)
        pk = pmt_packets(rng, pmt_pid, streams, prog_info, pointer=rng.choice((0, 0, 0, 1, 5)), version=rng.randrange(32))
        keep = rng.sample(pids, rng.randrange(1, ns + 1))
        if i % 7 == 0:
            keep.append(0x1ffe)   # a PID that is not in the PMT: packets and an error
        out.append(Case("crc.emit.pmt %s [ %s ]" % (hx(pk), " ".join(str(p) for p in keep)), kind="emit-filtered-pmt",
                        theorem="C13_emitted_section_residue_ok"))
    for i in range(n):
        cmd = i % 3
        descs = []
        # i % 16 == 5: a long section (section_length beyond 1023, where a 10-bit reading of the length field ends; seeded
        # C13-u2), built from many descriptors with long UPIDs
        for _ in range(rng.choice((0, 0, 1, 2, 3)) if i % 16 != 5 else rng.randrange(8, 18)):   # at most 17 x 225 bytes: below the 4093-byte limit of a section
            if i % 16 == 5:
                descs.append("[ %d %d %d %d %s %d ]" % (rng.randrange(1 << 32), rng.choice((0x10, 0x30, 0x34, 0x36, 0x40)), rng.randrange(2),
                                                      rng.randrange(1 << 33), hx(bytes(rng.randrange(256) for _ in range(rng.randrange(60, 200)))), 9))
                continue
            descs.append("[ %d %d %d %d %s %d ]" % (rng.randrange(1 << 32), rng.choice((0x10, 0x11, 0x30, 0x31, 0x34, 0x35, 0x36, 0x40, 0x50)),
                                                  rng.randrange(2), rng.randrange(1 << 33),
                                                  hx(bytes(rng.randrange(256) for _ in range(rng.choice((0, 0, 8, 12))))),
                                                  rng.choice((0, 1, 3, 8, 9, 12))))
        out.append(Case("crc.emit.scte %d %d %d %d [ %s ]" % (cmd, rng.randrange(1 << 12), rng.randrange(1 << 33), rng.choice((0, 0, 1, 4)),
                                                          " ".join(descs)), kind="emit-splice-info-section",
                        theorem="C13_emitted_section_residue_ok"))
    return out


K3_PREFIX = "UpdateData(): the section_length field holds only the low 10 bits of the length of a section longer than 1023 bytes"


def known_match(entry, case, real, model):
    if entry.get("signature") == "scte-section-length-10-bits":
        try:
            return case.kind.endswith("emit-splice-info-section") and residue_check(case, real).startswith(K3_PREFIX)
        except Exception:
            return False
    return case.line in entry.get("lines", [entry.get("line")])


def residue_check(c, real):
    """the receivers' check (register zero over the whole section incl. CRC_32) on what the real emitter returned"""
    v = vlib.parse_val(real)
    if c.kind == "emit-splice-info-section":
        if not isinstance(v, (bytes, bytearray)) or len(v) < 7:
            return "UpdateData() returned %s" % real[:200]
        sl = ((v[1] & 0x0f) << 8) | v[2]
        if 3 + sl != len(v):
            if len(v) - 3 >= 1024 and sl == (len(v) - 3) & 0x3FF:
                # known finding K3 (known_findings.json): psi.TableHeader.Data() writes 10 bits of section_length, so a section
                # of 1027 bytes or more is emitted with a truncated length field.  The CRC_32 must still close the bytes
                # returned; only the length field is the recorded finding.
                if table_crc(v) != 0:
                    return "encoded splice_info_section (long section) fails the CRC check over the bytes returned: residue %08x, CRC field %s, required %08x" % (
                        table_crc(v), v[-4:].hex(), table_crc(v[:-4]))
                return K3_PREFIX + ": %d bytes returned, length field says %d" % (len(v), sl)
            return "UpdateData(): section_length %d does not match the %d bytes returned" % (sl, len(v))
        if table_crc(v) != 0:
            return "encoded splice_info_section fails the CRC check: residue %08x, CRC field %s, required %08x" % (
                table_crc(v), v[-4:].hex(), table_crc(v[:-4]))
        return ""
    if not isinstance(v, list) or len(v) != 2:
        return "FilterPMTPacketsToPids: unexpected reply %s" % real[:200]
    cat, code = v
    if len(cat) == 0:
        return "" if code != 0 else "FilterPMTPacketsToPids returned no packets and no error"
    pay = b"".join(cat[i + 4:i + 188] for i in range(0, len(cat), 188))
    sec = pay[1 + pay[0]:]
    if len(sec) < 3:
        return "filtered PMT: no section in the returned packets"
    sl = ((sec[1] & 0x0f) << 8) | sec[2]
    if len(sec) < 3 + sl or sl < 4:
        return "filtered PMT: section_length %d exceeds the %d bytes returned" % (sl, len(sec))
    sec = sec[:3 + sl]
    if table_crc(sec) != 0:
        return "filtered PMT section fails the CRC check: residue %08x, CRC field %s, required %08x" % (
            table_crc(sec), sec[-4:].hex(), table_crc(sec[:-4]))
    return ""


def gen(rng, tier):
    return _gen_own(rng, tier) + _gen_emitted(rng, tier)


def _gen_own(rng, tier):
    out = []
    thorough = tier == "thorough"
    if thorough and not coqchk_audit():
        out.append(Case("crc.audit x", kind="coqchk-audit", theorem="C13_compute_crc_is_mpeg2"))
    def crc(b, kind, th="C13_compute_crc_is_mpeg2"):
        out.append(Case("crc " + hx(b), kind=kind, theorem=th))
    # 1. lengths 0..2 complete
    crc(b"", "len0-2")
    for a in range(256):
        crc(bytes([a]), "len0-2")
    for a in range(256):
        for b in range(256):
            crc(bytes([a, b]), "len0-2")
    # 2. known-answer vectors (catalogue check value of CRC-32/MPEG-2 is 0376E6E7 for "123456789")
    for v in (b"123456789", b"\x00" * 4, b"\xff" * 4, bytes(range(256))):
        crc(v, "known-answer")
        out.append(Case("crc.spec " + hx(v), kind="known-answer", theorem="C13_compute_crc_is_mpeg2"))
    # 3. single-bit and all-zero strings
    if thorough:
        full = set(range(1, 65)) | {188, 1024}
        for L in range(0, 1025):
            crc(bytes(L), "all-zero")
        for L in range(1, 1025):
            if L in full:
                pos = range(8 * L)
            else:
                pos = sorted({0, 8 * L - 1} | {rng.randrange(8 * L) for _ in range(8)})
            for p in pos:
                crc(single(L, p), "single-bit")
    else:
        for L in list(range(0, 65)) + [128, 183, 184, 188, 255, 256, 257, 512, 1021, 1023, 1024]:
            crc(bytes(L), "all-zero")
        for L in range(1, 25):
            for p in range(8 * L):
                crc(single(L, p), "single-bit")
        for L in (32, 64, 128, 188, 256, 512, 1021, 1024):
            for p in sorted({0, 1, 7, 8, 8 * L - 9, 8 * L - 8, 8 * L - 1} | {rng.randrange(8 * L) for _ in range(57)}):
                crc(single(L, p), "single-bit")
    # 3a. ALL single-bit strings of a length in one call (model side: linear-time table proved in Proofs/CrcLinear.v)
    for L in (range(0, 1025) if thorough else list(range(0, 65)) + [128, 183, 184, 188, 256, 512, 1024]):
        out.append(Case("crc.singles %d" % L, kind="single-bit-all", theorem="C13_single_bit_all"))
    # 3b. every length 0..1024 at least once with random content (section sizes), and a few long strings beyond 4 KiB
    for L in range(0, 1025):
        crc(bytes(rng.randrange(256) for _ in range(L)), "every-length")
    for L in ((4097, 8192, 65537) if not thorough else (4097, 4098, 8191, 8192, 16385, 65535, 65536, 65537, 262145)):
        crc(bytes(rng.randrange(256) for _ in range(L)), "long")
    # 4. random strings up to 4 KiB (sizes biased to section-like lengths)
    n = 10000 if thorough else 400
    for i in range(n):
        r = rng.random()
        L = rng.randrange(3, 64) if r < 0.4 else rng.randrange(64, 1025) if r < 0.8 else rng.randrange(1025, 4097)
        style = rng.random()
        if style < 0.7:
            b = bytes(rng.randrange(256) for _ in range(L))
        elif style < 0.85:
            b = bytes(rng.choice((0, 0xff)) for _ in range(L))
        else:  # sparse
            ba = bytearray(L)
            for _ in range(rng.randrange(1, 5)):
                ba[rng.randrange(L)] ^= 1 << rng.randrange(8)
            b = bytes(ba)
        crc(b, "random")
        if i % 4 == 0:
            out.append(Case("crc.residue " + hx(b), kind="residue", theorem="C13_residue_zero"))
        if i % 8 == 0 and L <= 1024:
            out.append(Case("crc.spec " + hx(b), kind="spec-direct", theorem="C13_compute_crc_is_mpeg2"))
        if i % 8 == 4 and L <= 1024:
            out.append(Case("crc.tab " + hx(b), kind="spec-table-direct", theorem="C13_compute_crc_is_table_driven"))
    # 5. the specification itself against the real code on the small domain (lengths 0..1 complete, sample of 2)
    out.append(Case("crc.spec x", kind="spec-direct", theorem="C13_compute_crc_is_mpeg2"))
    for a in range(256):
        out.append(Case("crc.spec " + hx(bytes([a])), kind="spec-direct", theorem="C13_compute_crc_is_mpeg2"))
        out.append(Case("crc.tab " + hx(bytes([a])), kind="spec-table-direct", theorem="C13_compute_crc_is_table_driven"))
        out.append(Case("crc.residue " + hx(bytes([a])), kind="residue", theorem="C13_residue_zero"))
    for _ in range(20000 if thorough else 1000):
        out.append(Case("crc.spec " + hx(bytes([rng.randrange(256), rng.randrange(256)])), kind="spec-direct",
                        theorem="C13_compute_crc_is_mpeg2"))
    out.append(Case("crc.residue x", kind="residue", theorem="C13_residue_zero"))
    out += emitter_cases(rng, tier)
    return out


def oracle(c, real, model):
    """the property fixes the reply completely, so the real reply is also checked against the table-driven CRC"""
    if c.kind == "coqchk-audit":
        return "coqchk does not confirm the proofs of Properties/C13.v as axiom-free: " + AUDIT.get("text", "")
    if c.kind == "single-bit-all":
        L = int(c.line.split(" ")[1])
        if L > 48:
            return None                      # real is compared with the (proved) linear-time table of the model
        want = "x" + "".join("%08x" % table_crc(single(L, p)) for p in range(8 * L))
        if real != want:
            return "ComputeCRC on the single-bit strings of %d bytes differs from the table-driven reference" % L
        if model != want:
            return "Crc32.singles_fast %d differs from the table-driven reference" % L
        return ""
    if c.kind.startswith("emit-"):
        try:
            return residue_check(c, real)
        except Exception as e:
            return "emitter reply cannot be read (%s): %s" % (e, real[:200])
    op, _, arg = c.line.partition(" ")
    try:
        data = unhx(arg.strip())
    except Exception:
        return None
    want = "x00000000" if op == "crc.residue" else "x%08x" % table_crc(data)
    if real != want:
        return "ComputeCRC differs from CRC-32/MPEG-2 (table-driven reference): got %s, required %s" % (real, want)
    if model != want:
        return "Coq model/spec differs from the table-driven reference: model %s, reference %s" % (model, want)
    return ""


def shrink(c):
    if c.kind.startswith("emit-"):
        return
    if c.kind == "single-bit-all":
        L = int(c.line.split(" ")[1])
        for L2 in (1, L // 2, L - 1):
            if 0 < L2 < L:
                yield Case("crc.singles %d" % L2, kind=c.kind, theorem=c.theorem)
        return
    op, _, arg = c.line.partition(" ")
    b = unhx(arg.strip())
    n = len(b)
    cands = []
    if n > 1:
        cands += [b[: n // 2], b[n // 2:], b[1:], b[:-1]]
    for i in range(min(n, 12)):
        if b[i]:
            cands.append(b[:i] + b"\x00" + b[i + 1:])
    for x in cands:
        if x != b:
            yield Case(op + " " + hx(x), kind=c.kind, theorem=c.theorem)


def case_of_line(line, kind):
    op = line.split(" ")[0]
    if op == "crc.singles":
        return Case(line, kind="single-bit-all", theorem="C13_single_bit_all")
    if op == "crc.emit.pmt":
        return Case(line, kind="emit-filtered-pmt", theorem="C13_emitted_section_residue_ok")
    if op == "crc.emit.scte":
        return Case(line, kind="emit-splice-info-section", theorem="C13_emitted_section_residue_ok")
    return Case(line, kind=kind, theorem="C13_residue_zero" if op == "crc.residue" else "C13_compute_crc_is_mpeg2")


LEVEL_TEXT = ("Proof: Properties/C13.v states for ALL byte strings that the model of ComputeCRC (augmented-message loop, "
              "initial register 0x46af6449, 32 trailing zero steps, as written in tsutils.go) returns the big-endian bytes of "
              "the textbook bit-serial CRC-32/MPEG-2 register, that appending the result gives residue zero and that no other "
              "four-byte trailer does, that the table-driven formulation of the specification is the same function, and that every "
              "single-bit and every burst error up to 32 bits changes the register; proved by GF(2)-linearity of the register step "
              "and induction over the bit list, no axioms (coqchk in the thorough tier). The model is tied to /repo by running both "
              "on all strings of length 0..2, one string of every length up to 1024, random strings up to 64 KiB, and EVERY "
              "single-bit string (up to 64 bytes and selected lengths in quick, up to 1024 bytes in thorough) through a proved "
              "linear-time table; the real code is also compared directly with the extracted specification (both formulations) "
              "and with an independent table-driven CRC, and the sections produced by the real emitters (FilterPMTPacketsToPids, "
              "SCTE35.UpdateData) are put through the receivers' check.")
LEVEL_NOTE = ("Trusted: Coq kernel; Spec/Crc32.v as the reading of 'CRC-32/MPEG-2'; the transcription Model/Crc.v (checked by "
              "the correspondence); extraction and executor glue; Go uint32 semantics.")
TECHNIQUE = "Coq proof (GF(2) linearity + induction on bits) + model/implementation correspondence, exhaustive on lengths 0..2"
