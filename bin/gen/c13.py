"""C13 — ComputeCRC is CRC-32/MPEG-2 on every input.
Three observations per input b: `crc b` (model of tsutils.go vs real), `crc.spec b` (textbook register of
Spec/Crc32.v vs real), `crc.residue b` (ComputeCRC(b ++ ComputeCRC(b)), must be 00000000); every real reply is
additionally compared with an independent table-driven CRC-32/MPEG-2 written here."""
import vlib
from vlib import Case, hx, unhx

PROP = "C13"
PROOF_FILES = ["Properties/C13.v", "Properties/C13tie.v"]
RULE = ("byte strings through ComputeCRC: all strings of length 0..2 (65 793, complete); single-bit strings (one bit set, "
        "rest zero) and all-zero strings; random strings up to 4 KiB; known-answer vectors; residue calls; a case is "
        "non-trivial when it is a distinct request line (every byte string is inside the property's domain)")
EXHAUSTIVE = True
EXHAUSTIVE_NOTE = ("lengths 0..2 are enumerated completely on every run. Single-bit strings: quick = every bit position for "
                   "lengths 1..24, plus 64 positions per length class up to 1024; thorough = every bit position of every "
                   "length 1..128 and of the lengths 188, 256, 512, 1021, 1024 (so every distance-from-the-end 1..8192 occurs), "
                   "first/last/8 random positions for every other length up to 1024, and the all-zero string of every length "
                   "0..1024. The unbounded domain is covered by theorem C13_compute_crc_is_mpeg2.")
ASSUMPTIONS = ["Go uint32 shifts/xor as written out in Model/Crc.v; encoding/binary.BigEndian.PutUint32 is big-endian"]

POLY = 0x04C11DB7
TABLE = []
for _i in range(256):
    _r = _i << 24
    for _ in range(8):
        _r = ((_r << 1) ^ POLY) & 0xFFFFFFFF if _r & 0x80000000 else (_r << 1) & 0xFFFFFFFF
    TABLE.append(_r)


def table_crc(data):
    """independent table-driven CRC-32/MPEG-2 (byte-at-a-time, init FFFFFFFF, no reflection, no final xor)"""
    r = 0xFFFFFFFF
    for b in data:
        r = ((r << 8) & 0xFFFFFFFF) ^ TABLE[(r >> 24) ^ b]
    return r


def single(length, bitpos):
    b = bytearray(length)
    b[bitpos // 8] = 0x80 >> (bitpos % 8)
    return bytes(b)


BORROWS = ["C14", "C09"]


def _gen_emitted(rng, tier):
    """clause "every section the library emits (filtered PMT, encoded splice_info_section) satisfies it": the emitting
    operations of C14 (pmt.filter) and C09 (scte.build / scte.reencode) on their own generated inputs, judged by their
    oracles, which compare the emitted bytes - CRC_32 included - with the Spec serialisation"""
    import random as _r, importlib
    out = []
    for name, keep, th in (("c14", lambda c: c.decides and c.kind.startswith("filter-"), "C13tie_filter_emits_mpeg2_crc (C13_emitted_section_residue_ok + C14_filter_spec)"),
                           ("c09", lambda c: c.decides, "C13tie_update_data_residue_zero (C13_emitted_section_residue_ok + C09_crc_clause)")):
        try:
            m = importlib.import_module("gen." + name)
        except ImportError:
            continue
        sub = _r.Random(rng.randrange(1 << 62))
        out += vlib.borrow(m, m.gen(sub, tier), "emitted", keep=keep, theorem=th)
    return out


def gen(rng, tier):
    return _gen_own(rng, tier) + _gen_emitted(rng, tier)


def _gen_own(rng, tier):
    out = []
    thorough = tier == "thorough"
    def crc(b, kind, th="C13_compute_crc_is_mpeg2"):
        out.append(Case("crc " + hx(b), kind=kind, theorem=th))
    # 1. lengths 0..2 complete
    crc(b"", "len0-2")
    for a in range(256):
        crc(bytes([a]), "len0-2")
    for a in range(256):
        for b in range(256):
            crc(bytes([a, b]), "len0-2")
    # 2. known-answer vectors (catalogue check value of CRC-32/MPEG-2 is 0376E6E7 for "123456789")
    for v in (b"123456789", b"\x00" * 4, b"\xff" * 4, bytes(range(256))):
        crc(v, "known-answer")
        out.append(Case("crc.spec " + hx(v), kind="known-answer", theorem="C13_compute_crc_is_mpeg2"))
    # 3. single-bit and all-zero strings
    if thorough:
        full = set(range(1, 129)) | {188, 256, 512, 1021, 1024}
        for L in range(0, 1025):
            crc(bytes(L), "all-zero")
        for L in range(1, 1025):
            if L in full:
                pos = range(8 * L)
            else:
                pos = sorted({0, 8 * L - 1} | {rng.randrange(8 * L) for _ in range(8)})
            for p in pos:
                crc(single(L, p), "single-bit")
    else:
        for L in list(range(0, 65)) + [128, 183, 184, 188, 255, 256, 257, 512, 1021, 1023, 1024]:
            crc(bytes(L), "all-zero")
        for L in range(1, 25):
            for p in range(8 * L):
                crc(single(L, p), "single-bit")
        for L in (32, 64, 128, 188, 256, 512, 1021, 1024):
            for p in sorted({0, 1, 7, 8, 8 * L - 9, 8 * L - 8, 8 * L - 1} | {rng.randrange(8 * L) for _ in range(57)}):
                crc(single(L, p), "single-bit")
    # 4. random strings up to 4 KiB (sizes biased to section-like lengths)
    n = 20000 if thorough else 400
    for i in range(n):
        r = rng.random()
        L = rng.randrange(3, 64) if r < 0.4 else rng.randrange(64, 1025) if r < 0.8 else rng.randrange(1025, 4097)
        style = rng.random()
        if style < 0.7:
            b = bytes(rng.randrange(256) for _ in range(L))
        elif style < 0.85:
            b = bytes(rng.choice((0, 0xff)) for _ in range(L))
        else:  # sparse
            ba = bytearray(L)
            for _ in range(rng.randrange(1, 5)):
                ba[rng.randrange(L)] ^= 1 << rng.randrange(8)
            b = bytes(ba)
        crc(b, "random")
        if i % 4 == 0:
            out.append(Case("crc.residue " + hx(b), kind="residue", theorem="C13_residue_zero"))
        if i % 8 == 0 and L <= 1024:
            out.append(Case("crc.spec " + hx(b), kind="spec-direct", theorem="C13_compute_crc_is_mpeg2"))
    # 5. the specification itself against the real code on the small domain (lengths 0..1 complete, sample of 2)
    out.append(Case("crc.spec x", kind="spec-direct", theorem="C13_compute_crc_is_mpeg2"))
    for a in range(256):
        out.append(Case("crc.spec " + hx(bytes([a])), kind="spec-direct", theorem="C13_compute_crc_is_mpeg2"))
        out.append(Case("crc.residue " + hx(bytes([a])), kind="residue", theorem="C13_residue_zero"))
    for _ in range(20000 if thorough else 1000):
        out.append(Case("crc.spec " + hx(bytes([rng.randrange(256), rng.randrange(256)])), kind="spec-direct",
                        theorem="C13_compute_crc_is_mpeg2"))
    out.append(Case("crc.residue x", kind="residue", theorem="C13_residue_zero"))
    return out


def oracle(c, real, model):
    """the property fixes the reply completely, so the real reply is also checked against the table-driven CRC"""
    op, _, arg = c.line.partition(" ")
    try:
        data = unhx(arg.strip())
    except Exception:
        return None
    want = "x00000000" if op == "crc.residue" else "x%08x" % table_crc(data)
    if real != want:
        return "ComputeCRC differs from CRC-32/MPEG-2 (table-driven reference): got %s, required %s" % (real, want)
    if model != want:
        return "Coq model/spec differs from the table-driven reference: model %s, reference %s" % (model, want)
    return ""


def shrink(c):
    op, _, arg = c.line.partition(" ")
    b = unhx(arg.strip())
    n = len(b)
    cands = []
    if n > 1:
        cands += [b[: n // 2], b[n // 2:], b[1:], b[:-1]]
    for i in range(min(n, 12)):
        if b[i]:
            cands.append(b[:i] + b"\x00" + b[i + 1:])
    for x in cands:
        if x != b:
            yield Case(op + " " + hx(x), kind=c.kind, theorem=c.theorem)


def case_of_line(line, kind):
    op = line.split(" ")[0]
    return Case(line, kind=kind, theorem="C13_residue_zero" if op == "crc.residue" else "C13_compute_crc_is_mpeg2")


LEVEL_TEXT = ("Proof: Properties/C13.v states for ALL byte strings that the model of ComputeCRC (augmented-message loop, "
              "initial register 0x46af6449, 32 trailing zero steps, as written in tsutils.go) returns the big-endian bytes of "
              "the textbook bit-serial CRC-32/MPEG-2 register, and that appending the result gives residue zero; proved by "
              "GF(2)-linearity of the register step and induction over the bit list, no axioms. The model is tied to /repo by "
              "running both on all strings of length 0..2, single-bit strings, random strings up to 4 KiB; the real code is also "
              "compared directly with the extracted specification and with an independent table-driven CRC.")
LEVEL_NOTE = ("Trusted: Coq kernel; Spec/Crc32.v as the reading of 'CRC-32/MPEG-2'; the transcription Model/Crc.v (checked by "
              "the correspondence); extraction and executor glue; Go uint32 semantics.")
TECHNIQUE = "Coq proof (GF(2) linearity + induction on bits) + model/implementation correspondence, exhaustive on lengths 0..2"
