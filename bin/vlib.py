"""Shared machinery of bin/check (DESIGN.md section 5): builds, coprocess drivers, verdicts,
known findings, evidence.  Python only moves strings between the Coq-extracted model
(modelexec) and the real library (goexec), compares them and writes files."""
import fcntl, hashlib, json, os, random, re, resource, select, subprocess, sys, tempfile, time

VERIF = os.path.dirname(os.path.dirname(os.path.abspath(__file__)))
REPO = os.environ.get("VERIF_REPO", "/repo")
COQ = os.path.join(VERIF, "coq")
OUT = os.path.join(VERIF, "out")
MODELEXEC = os.path.join(VERIF, "ocaml", "modelexec")
GOENV = dict(os.environ, GOFLAGS="-mod=mod", GOPROXY="off", GOSUMDB="off", GOTOOLCHAIN="local",
             CGO_ENABLED="0")
HOME_CACHE = os.path.join(os.path.expanduser("~"), ".cache", "verif-scratch")

TRUSTED_BASE = [
    "Coq 8.16.1 kernel and its bytecode VM (vm_compute) for finite-reflection lemmas; no native_compute",
    "axioms: none (Print Assumptions under every property theorem must say 'Closed under the global context')",
    "extraction: Require Extraction + ExtrOcamlBasic only (Extract Inductive bool/option/unit/list/prod/sumbool/sumor; no Extract Constant); N/Z/positive/nat stay inductive; OCaml 4.13.1",
    "hand-written glue: ocaml/main.ml (line protocol, zarith conversion), goexec/*.go (argument decoding, observation printing, recover, watchdog), bin/*.py (generation, comparison, shrinking, JSON)",
    "hand transcription of each Go function into coq/theories/Model/*.v, checked on every run by the correspondence (this run's counts are in this file)",
    "Go semantics conventions of DESIGN.md section 3 (int does not overflow on these inputs; cap=len for caller slices; bytes.Buffer, bufio, io, time, encoding/binary behave as documented); Go compiler and runtime",
    "Spec files (coq/theories/Spec) as a reading of ISO 13818-1 / SCTE 35 / the property text",
]


def log(*a):
    print(*a, file=sys.stderr, flush=True)


class Lock:
    def __init__(self, name="build"):
        os.makedirs(OUT, exist_ok=True)
        self.path = os.path.join(OUT, "." + name + ".lock")

    def __enter__(self):
        self.f = open(self.path, "w")
        fcntl.flock(self.f, fcntl.LOCK_EX)

    def __exit__(self, *a):
        fcntl.flock(self.f, fcntl.LOCK_UN)
        self.f.close()


# ----------------------------------------------------------------------------- builds

def sh(cmd, cwd=None, timeout=3600, env=None):
    p = subprocess.run(cmd, shell=True, cwd=cwd, timeout=timeout, env=env,
                       stdout=subprocess.PIPE, stderr=subprocess.STDOUT, text=True)
    return p.returncode, p.stdout


def coq_sources():
    res = []
    for d, _, fs in os.walk(os.path.join(COQ, "theories")):
        for f in fs:
            if f.endswith(".v"):
                res.append(os.path.relpath(os.path.join(d, f), COQ))
    return sorted(res)


FORBIDDEN = re.compile(r"\b(Admitted|admit|Axiom|Axioms|Parameter|Parameters|Conjecture|Admit Obligations|bypass_check)\b|Unset\s+Guard|Unset\s+Positivity|Unset\s+Universe|type-in-type|impredicative-set")


def lint_coq():
    """fail on any forbidden declaration (comments are stripped first)"""
    bad = []
    for f in coq_sources() + ["Extract.v"]:
        src = open(os.path.join(COQ, f)).read()
        src = strip_comments(src)
        for i, line in enumerate(src.split("\n"), 1):
            if FORBIDDEN.search(line):
                bad.append("%s:%d: %s" % (f, i, line.strip()))
    return bad


def strip_comments(src):
    out, depth, i = [], 0, 0
    while i < len(src):
        if src.startswith("(*", i):
            depth += 1; i += 2
        elif src.startswith("*)", i) and depth > 0:
            depth -= 1; i += 2
        else:
            if depth == 0:
                out.append(src[i])
            elif src[i] == "\n":
                out.append("\n")
            i += 1
    return "".join(out)


def build_coq(jobs=16):
    """coq_makefile + make (full .vo build, never -vos); no-op when current"""
    with Lock("coq"):
        srcs = coq_sources()
        proj = "-Q theories Gots\n" + "\n".join(srcs) + "\n"
        pj = os.path.join(COQ, "_CoqProject")
        if not os.path.exists(pj) or open(pj).read() != proj:
            open(pj, "w").write(proj)
        mk = os.path.join(COQ, "Makefile.coq")
        if not os.path.exists(mk) or os.path.getmtime(mk) < os.path.getmtime(pj):
            rc, out = sh("coq_makefile -f _CoqProject -o Makefile.coq", cwd=COQ)
            if rc != 0:
                return False, out
        rc, out = sh("timeout 3000 make -f Makefile.coq -j%d" % jobs, cwd=COQ, timeout=3100)
        return rc == 0, out


def build_modelexec():
    """extraction (run in ocaml/gen) + ocamlfind; rebuilt when any .vo is newer than the binary"""
    with Lock("ocaml"):
        newest = 0
        for d, _, fs in os.walk(COQ):
            for f in fs:
                if f.endswith(".vo") or f == "Extract.v":
                    newest = max(newest, os.path.getmtime(os.path.join(d, f)))
        main = os.path.join(VERIF, "ocaml", "main.ml")
        newest = max(newest, os.path.getmtime(main))
        if os.path.exists(MODELEXEC) and os.path.getmtime(MODELEXEC) >= newest:
            return True, "current"
        gen = os.path.join(VERIF, "ocaml", "gen")
        os.makedirs(gen, exist_ok=True)
        rc, out = sh("timeout 900 coqc -Q ../../coq/theories Gots ../../coq/Extract.v", cwd=gen)
        if rc != 0:
            return False, out
        rc, out2 = sh("cp ../main.ml . && timeout 900 ocamlfind ocamlopt -package zarith -linkpkg -w -a "
                      "model.mli model.ml main.ml -o ../modelexec", cwd=gen)
        return rc == 0, out + out2


def build_goexec():
    """always rebuilt from /repo's current working tree (replace directive), build tag verif"""
    os.makedirs(OUT, exist_ok=True)
    exe = os.path.join(OUT, "goexec.%d" % os.getpid())
    src = os.path.join(VERIF, "goexec")
    gomod = open(os.path.join(src, "go.mod")).read()
    if REPO != "/repo":
        # development aid (bin/selftest): point the replace directive at a scratch copy
        tmp = tempfile.mkdtemp(prefix="goexec-", dir=HOME_CACHE if os.path.isdir(HOME_CACHE) else None)
        sh("cp %s/*.go %s/" % (src, tmp))
        open(os.path.join(tmp, "go.mod"), "w").write(gomod.replace("=> /repo", "=> " + REPO))
        src = tmp
    rc, out = sh("go build -tags verif -o %s ." % exe, cwd=src, env=GOENV, timeout=900)
    if REPO != "/repo":
        sh("rm -rf %s" % src)
    if rc != 0:
        return None, out
    return exe, out


# ----------------------------------------------------------------------------- proofs

def check_proofs(prop, files):
    """re-run coqc on the property file(s), count theorems and closed-assumption reports"""
    res = {"files": files, "theorems": [], "obligations": 0, "discharged": 0, "assumptions": [],
           "ok": True, "log": ""}
    bad = lint_coq()
    if bad:
        res["ok"] = False
        res["log"] += "forbidden declarations:\n" + "\n".join(bad) + "\n"
    for f in files:
        path = os.path.join(COQ, "theories", f)
        src = strip_comments(open(path).read())
        thms = re.findall(r"^\s*(?:Theorem|Corollary)\s+(\w+)", src, re.M)
        res["theorems"] += thms
        res["obligations"] += len(thms)
        with Lock("coq"):
            # compile to a scratch .vo so that concurrent checks never race on the real one
            tmpd = os.path.join(OUT, "prop.%d" % os.getpid())
            os.makedirs(tmpd, exist_ok=True)
            tmpvo = os.path.join(tmpd, os.path.basename(f) + "o")
            rc, out = sh("timeout 1200 coqc -Q theories Gots -o %s theories/%s" % (tmpvo, f), cwd=COQ, timeout=1300)
            sh("rm -rf %s" % tmpd)
        closed = out.count("Closed under the global context")
        axioms = re.findall(r"^Axioms:\n((?:.+\n)+)", out, re.M)
        res["assumptions"].append({"file": f, "closed": closed, "axioms": axioms})
        if rc != 0:
            res["ok"] = False
            res["log"] += out[-3000:]
        else:
            res["discharged"] += min(closed, len(thms))
            if axioms or closed < len(thms):
                res["ok"] = False
                res["log"] += "Print Assumptions not closed for every theorem in %s:\n%s" % (f, out[-2000:])
    return res


# ----------------------------------------------------------------------------- coprocesses

def _limits():
    try:
        resource.setrlimit(resource.RLIMIT_AS, (12 << 30, 12 << 30))
    except Exception:
        pass


def run_model(lines, timeout=3600):
    """modelexec is total (extracted Gallina): plain batch"""
    if not lines:
        return []
    p = subprocess.run([MODELEXEC], input="\n".join(lines) + "\n", stdout=subprocess.PIPE,
                       stderr=subprocess.PIPE, text=True, timeout=timeout)
    out = p.stdout.split("\n")
    if out and out[-1] == "":
        out.pop()
    if len(out) != len(lines):
        raise RuntimeError("modelexec returned %d replies for %d cases: %s" % (len(out), len(lines), p.stderr[-500:]))
    return out


def run_go(exe, lines, per_case_timeout=8.0):
    """robust batch: a reply '[3]' (watchdog) or a dead process costs one case and a restart.
    '[4]' = the process died on that case without an answer (fatal runtime error)."""
    replies = []
    restarts = 0
    while len(replies) < len(lines):
        start = len(replies)
        chunk = lines[start:]
        p = subprocess.Popen([exe], stdin=subprocess.PIPE, stdout=subprocess.PIPE, stderr=subprocess.PIPE,
                             preexec_fn=_limits)
        data = ("\n".join(chunk) + "\n").encode()
        os.set_blocking(p.stdin.fileno(), False)
        os.set_blocking(p.stdout.fileno(), False)
        wpos, buf, got = 0, b"", 0
        last = time.time()
        dead = False
        stdin_open = True
        answered_hang = False
        while got < len(chunk) and not dead:
            wl = [p.stdin] if stdin_open and wpos < len(data) else []
            r, w, _ = select.select([p.stdout], wl, [], 0.5)
            if w:
                try:
                    wpos += os.write(p.stdin.fileno(), data[wpos:wpos + 65536])
                except BlockingIOError:
                    pass
                except (BrokenPipeError, OSError):
                    stdin_open = False
                if wpos >= len(data) and stdin_open:
                    p.stdin.close(); stdin_open = False
            if r:
                try:
                    d = os.read(p.stdout.fileno(), 1 << 20)
                except BlockingIOError:
                    d = None
                if d == b"":
                    dead = True
                elif d:
                    buf += d
                    last = time.time()
                    while True:
                        k = buf.find(b"\n")
                        if k < 0: break
                        replies.append(buf[:k].decode()); buf = buf[k + 1:]; got += 1
                        if replies[-1] == "[3]":
                            answered_hang = True; dead = True
                            break
            if not dead and time.time() - last > per_case_timeout:
                replies.append("[3]"); got += 1; answered_hang = True; dead = True
        if dead:
            try: p.kill()
            except Exception: pass
            p.wait()
            if not answered_hang and got < len(chunk):
                replies.append("[4]")   # died on this case without answering
            restarts += 1
            if restarts > 5000:
                raise RuntimeError("goexec keeps dying")
        else:
            if stdin_open:
                try: p.stdin.close()
                except Exception: pass
            p.wait()
    return replies[:len(lines)]


# ----------------------------------------------------------------------------- values

def hx(b):
    return "x" + bytes(b).hex()


def unhx(s):
    assert s[0] == "x"
    return bytes.fromhex(s[1:])


def parse_val(s):
    toks = s.replace("[", " [ ").replace("]", " ] ").split()
    def go(i):
        out = []
        while i < len(toks):
            t = toks[i]
            if t == "]":
                return out, i
            if t == "[":
                inner, j = go(i + 1)
                out.append(inner); i = j + 1
            elif t[0] == "x":
                out.append(bytes.fromhex(t[1:])); i += 1
            else:
                out.append(int(t)); i += 1
        return out, i
    v, _ = go(0)
    return v[0] if len(v) == 1 else v


def fmt_val(v):
    if isinstance(v, bool):
        return "1" if v else "0"
    if isinstance(v, int):
        return str(v)
    if isinstance(v, (bytes, bytearray)):
        return hx(v)
    return "[" + " ".join(fmt_val(x) for x in v) + "]"


def coq_val(tok_line):
    """wire syntax of an argument list -> Coq term of type list val"""
    def conv(v):
        if isinstance(v, int):
            return "VI (%d)%%Z" % v
        if isinstance(v, (bytes, bytearray)):
            return "VB [" + ";".join(str(x) for x in v) + "]%N"
        return "VL [" + "; ".join(conv(x) for x in v) + "]"
    vals = parse_val("[" + tok_line + "]")
    return "[" + "; ".join(conv(x) for x in vals) + "]"


def coq_crosscheck(lines, model_replies, sample=150, rng=None):
    """thorough tier: re-evaluate a sample of the cases inside Coq (vm_compute on Exec.All.run)
    and compare with what the extracted OCaml answered.  Returns (n_checked, mismatches)."""
    rng = rng or random.Random(0)
    idxs = list(range(len(lines)))
    rng.shuffle(idxs)
    idxs = [i for i in idxs if len(lines[i]) < 3000][:sample]
    if not idxs:
        return 0, []
    src = ["From Gots Require Import Base.Prelude Exec.ExecBase Exec.All.", "Open Scope string_scope.",
           "Fixpoint pv (v : val) : val := v."]
    # print through a Coq-side serialiser to avoid parsing Coq's wrapped output: compare inside Coq
    items = []
    for i in idxs:
        op, _, rest = lines[i].partition(" ")
        want = coq_val(model_replies[i])
        items.append("(run \"%s\" %s, %s)" % (op, coq_val(rest), "match %s with [v] => v | _ => VL [] end" % want))
    src.append("Fixpoint val_eqb (a b : val) : bool := match a, b with"
               " | VI x, VI y => Z.eqb x y | VB x, VB y => (fix eqb (p q : list N) := match p, q with [], [] => true | u :: p', v :: q' => N.eqb u v && eqb p' q' | _, _ => false end) x y"
               " | VL x, VL y => (fix eql (p q : list val) := match p, q with [], [] => true | u :: p', v :: q' => val_eqb u v && eql p' q' | _, _ => false end) x y"
               " | _, _ => false end.")
    src.append("Definition cases : list (val * val) := [\n" + ";\n".join(items) + "].")
    src.append("Definition bad : list nat := Eval vm_compute in "
               "(fix go (i : nat) (l : list (val * val)) := match l with [] => [] | (a, b) :: t => if val_eqb a b then go (S i) t else i :: go (S i) t end) O cases.")
    src.append("Print bad.")
    d = tempfile.mkdtemp(prefix="xcheck-", dir=OUT)
    try:
        open(os.path.join(d, "cases.v"), "w").write("\n".join(src) + "\n")
        rc, out = sh("timeout 1200 coqc -Q %s/theories Gots cases.v" % COQ, cwd=d, timeout=1300)
    finally:
        sh("rm -rf %s" % d)
    if rc != 0:
        return 0, ["coqc failed: " + out[-800:]]
    m = re.search(r"bad\s*=\s*(\[.*?\])", out, re.S)
    if not m:
        return 0, ["cannot parse: " + out[-300:]]
    body = m.group(1).strip()
    if body == "[]":
        return len(idxs), []
    nums = [int(x) for x in re.findall(r"\d+", body)]
    return len(idxs), [lines[idxs[k]] for k in nums]


# ----------------------------------------------------------------------------- cases

class Case:
    """one request line for both executors.
    decides=True : the projection compared is fully determined by the property and proved of the
                   model, so real != model IS a violation with this input as the replay;
    decides=False: fidelity case (ties the model to the code beyond the property's projection);
                   a mismatch only breaks the correspondence and triggers the search.
    nontrivial   : reaches the property's interesting branch (rule stated by the generator).
    proj         : optional function reply-string -> comparable value (projection)."""
    __slots__ = ("line", "kind", "decides", "nontrivial", "theorem", "proj", "note")

    def __init__(self, line, kind="", decides=True, nontrivial=True, theorem="", proj=None, note=""):
        self.line = line; self.kind = kind; self.decides = decides; self.nontrivial = nontrivial
        self.theorem = theorem; self.proj = proj; self.note = note


def load_known(prop):
    path = os.path.join(VERIF, "known_findings.json")
    if not os.path.exists(path):
        return []
    return [k for k in json.load(open(path))["findings"] if k["property"] == prop]


def load_corpus(prop):
    d = os.path.join(VERIF, "corpus", prop)
    out = []
    if os.path.isdir(d):
        for f in sorted(os.listdir(d)):
            for line in open(os.path.join(d, f)):
                line = line.strip()
                if line and not line.startswith("#"):
                    out.append(line)
    return out


def write_evidence(prop, ev):
    os.makedirs(os.path.join(VERIF, "evidence"), exist_ok=True)
    path = os.path.join(VERIF, "evidence", prop + ".json")
    tmp = path + ".tmp%d" % os.getpid()
    json.dump(ev, open(tmp, "w"), indent=1, sort_keys=True)
    os.replace(tmp, path)
