// apirefs: which exported identifiers of the library does each goexec op reference?  (stdlib only)
// usage (cwd = goexec/, module mode):  go run ../bin/apirefs/main.go <module path prefix>
// Type-checks package goexec from source, then for every top-level function and every
// register("op", func..) literal lists the library objects it uses (functions, methods incl. interface
// methods, constants, variables, types, fields) and the goexec helpers it calls.
// output: one JSON object per line {"unit": "op:pts.after" | "func:helper", "file", "uses": [..], "calls": [..]}
//   uses entries: "<pkgpath-suffix>|<recv or empty>|<name>"
package main

import (
	"encoding/json"
	"fmt"
	"go/ast"
	"go/build"
	"go/importer"
	"go/parser"
	"go/token"
	"go/types"
	"os"
	"path/filepath"
	"sort"
	"strings"
)

type unit struct {
	Unit  string   `json:"unit"`
	File  string   `json:"file"`
	Uses  []string `json:"uses"`
	Calls []string `json:"calls"`
}

func main() {
	prefix := "github.com/Comcast/gots/v2"
	if len(os.Args) > 1 {
		prefix = os.Args[1]
	}
	fset := token.NewFileSet()
	ctx := build.Default
	ctx.BuildTags = append(ctx.BuildTags, "verif")
	names, _ := filepath.Glob("*.go")
	var files []*ast.File
	for _, n := range names {
		if strings.HasSuffix(n, "_test.go") {
			continue
		}
		if ok, _ := ctx.MatchFile(".", n); !ok {
			continue
		}
		f, err := parser.ParseFile(fset, n, nil, 0)
		if err != nil {
			panic(err)
		}
		files = append(files, f)
	}
	info := &types.Info{Uses: map[*ast.Ident]types.Object{}, Selections: map[*ast.SelectorExpr]*types.Selection{}, Defs: map[*ast.Ident]types.Object{}}
	conf := types.Config{Importer: importer.ForCompiler(fset, "source", nil), Error: func(err error) { fmt.Fprintln(os.Stderr, "typecheck:", err) }}
	pkg, _ := conf.Check("main", fset, files, info)
	_ = pkg
	var units []*unit
	describe := func(o types.Object) string {
		if o == nil || o.Pkg() == nil || !strings.HasPrefix(o.Pkg().Path(), prefix) || !o.Exported() {
			return ""
		}
		p := strings.TrimPrefix(strings.TrimPrefix(o.Pkg().Path(), prefix), "/")
		if p == "" {
			p = "gots"
		}
		recv := ""
		switch x := o.(type) {
		case *types.Func:
			if sig, ok := x.Type().(*types.Signature); ok && sig.Recv() != nil {
				t := sig.Recv().Type()
				if pt, ok := t.(*types.Pointer); ok {
					t = pt.Elem()
				}
				if nt, ok := t.(*types.Named); ok {
					recv = nt.Obj().Name()
				} else {
					recv = "?"
				}
			}
		case *types.Var:
			if x.IsField() {
				recv = "field"
			}
		}
		return p + "|" + recv + "|" + o.Name()
	}
	collect := func(u *unit, body ast.Node) {
		seenU, seenC := map[string]bool{}, map[string]bool{}
		ast.Inspect(body, func(n ast.Node) bool {
			// methods reached through an interface that is not the library's own (a local interface of goexec, an
			// anonymous one, io.Writer ..): recorded BY NAME as "*|~|Name"; string literals that look like exported
			// identifiers (reflection on exported fields of unexported structs): "*|str|Name"
			if se, ok := n.(*ast.SelectorExpr); ok {
				if sel := info.Selections[se]; sel != nil && sel.Kind() == types.MethodVal {
					if o := sel.Obj(); o.Exported() && (o.Pkg() == nil || !strings.HasPrefix(o.Pkg().Path(), prefix)) {
						if _, isIface := sel.Recv().Underlying().(*types.Interface); isIface {
							d := "*|~|" + o.Name()
							if !seenU[d] {
								seenU[d] = true
								u.Uses = append(u.Uses, d)
							}
						}
					}
				}
			}
			if bl, ok := n.(*ast.BasicLit); ok && bl.Kind == token.STRING {
				v := strings.Trim(bl.Value, "\"`")
				if len(v) > 1 && v[0] >= 'A' && v[0] <= 'Z' && !strings.ContainsAny(v, " .,:;-/%()[]{}") {
					d := "*|str|" + v
					if !seenU[d] {
						seenU[d] = true
						u.Uses = append(u.Uses, d)
					}
				}
			}
			id, ok := n.(*ast.Ident)
			if !ok {
				return true
			}
			o := info.Uses[id]
			if o == nil {
				return true
			}
			if d := describe(o); d != "" {
				if !seenU[d] {
					seenU[d] = true
					u.Uses = append(u.Uses, d)
				}
			} else if o.Pkg() != nil && o.Pkg().Path() == "main" {
				if fn, isFn := o.(*types.Func); isFn && (o.Parent() == o.Pkg().Scope() || fn.Type().(*types.Signature).Recv() != nil) {
					if !seenC[o.Name()] {
						seenC[o.Name()] = true
						u.Calls = append(u.Calls, o.Name())
					}
				} else if v, isVar := o.(*types.Var); isVar && v.Parent() == o.Pkg().Scope() {
					if !seenC["var:"+o.Name()] {
						seenC["var:"+o.Name()] = true
						u.Calls = append(u.Calls, "var:"+o.Name())
					}
				}
			}
			return true
		})
		sort.Strings(u.Uses)
		sort.Strings(u.Calls)
	}
	for _, f := range files {
		fname := fset.Position(f.Pos()).Filename
		for _, d := range f.Decls {
			switch fd := d.(type) {
			case *ast.FuncDecl:
				if fd.Body == nil {
					continue
				}
				name := fd.Name.Name
				if fd.Recv != nil {
					name = "method:" + name
				}
				if name == "init" {
					name = "init@" + fname
				}
				// the registered literals are units of their own; the rest of the function is the unit "func:<name>"
				var regs []*ast.CallExpr
				ast.Inspect(fd.Body, func(n ast.Node) bool {
					if c, ok := n.(*ast.CallExpr); ok {
						if id, ok := c.Fun.(*ast.Ident); ok && (id.Name == "register" || id.Name == "tot") && len(c.Args) == 2 {
							if _, lit := c.Args[0].(*ast.BasicLit); lit {
								regs = append(regs, c)
								return false
							}
						}
					}
					return true
				})
				u := &unit{Unit: "func:" + name, File: fname}
				// body minus the register calls
				pruned := &pruneNode{root: fd.Body, skip: map[ast.Node]bool{}}
				for _, r := range regs {
					pruned.skip[r] = true
				}
				collectPruned(u, pruned, collect)
				units = append(units, u)
				for _, r := range regs {
					opname := "?"
					if bl, ok := r.Args[0].(*ast.BasicLit); ok {
						opname = strings.Trim(bl.Value, "\"")
						if r.Fun.(*ast.Ident).Name == "tot" { // total.go: tot(name, f) registers "tot."+name
							opname = "tot." + opname
						}
					} else {
						opname = "dyn@" + fset.Position(r.Pos()).String()
					}
					ou := &unit{Unit: "op:" + opname, File: fname}
					collect(ou, r.Args[1])
					// an op registered inside a function may use that function's local closures: depend on the enclosing unit too
					ou.Calls = append(ou.Calls, "encl:"+name)
					units = append(units, ou)
				}
			case *ast.GenDecl:
				for _, s := range fd.Specs {
					if vs, ok := s.(*ast.ValueSpec); ok {
						for _, n := range vs.Names {
							u := &unit{Unit: "func:var:" + n.Name, File: fname}
							for _, v := range vs.Values {
								tmp := &unit{}
								collect(tmp, v)
								u.Uses = append(u.Uses, tmp.Uses...)
								u.Calls = append(u.Calls, tmp.Calls...)
							}
							if vs.Type != nil {
								tmp := &unit{}
								collect(tmp, vs.Type)
								u.Uses = append(u.Uses, tmp.Uses...)
							}
							units = append(units, u)
						}
					}
				}
			}
		}
	}
	for _, u := range units {
		b, _ := json.Marshal(u)
		fmt.Println(string(b))
	}
}

type pruneNode struct {
	root ast.Node
	skip map[ast.Node]bool
}

func collectPruned(u *unit, p *pruneNode, collect func(*unit, ast.Node)) {
	// walk, collecting from maximal subtrees that contain no skipped node
	var walk func(n ast.Node)
	contains := func(n ast.Node) bool {
		found := false
		ast.Inspect(n, func(m ast.Node) bool {
			if m != nil && p.skip[m] {
				found = true
			}
			return !found
		})
		return found
	}
	seenU, seenC := map[string]bool{}, map[string]bool{}
	add := func(t *unit) {
		for _, x := range t.Uses {
			if !seenU[x] {
				seenU[x] = true
				u.Uses = append(u.Uses, x)
			}
		}
		for _, x := range t.Calls {
			if !seenC[x] {
				seenC[x] = true
				u.Calls = append(u.Calls, x)
			}
		}
	}
	walk = func(n ast.Node) {
		if n == nil || p.skip[n] {
			return
		}
		if !contains(n) {
			t := &unit{}
			collect(t, n)
			add(t)
			return
		}
		// descend one level
		first := true
		ast.Inspect(n, func(m ast.Node) bool {
			if first {
				first = false
				return true
			}
			if m != nil {
				walk(m)
			}
			return false
		})
	}
	walk(p.root)
	sort.Strings(u.Uses)
	sort.Strings(u.Calls)
}
