// apilist: enumerate every exported identifier of the library under test (stdlib only).
// usage: go run bin/apilist/main.go /repo  -> one JSON object per line:
//   {"pkg","kind","recv","name","file","line","sig"}
// kinds: func, method, ifacemethod, const, var, type, field
package main

import (
	"bytes"
	"encoding/json"
	"fmt"
	"go/ast"
	"go/parser"
	"go/printer"
	"go/token"
	"os"
	"path/filepath"
	"sort"
	"strings"
)

type item struct {
	Pkg  string `json:"pkg"`
	Kind string `json:"kind"`
	Recv string `json:"recv"`
	Name string `json:"name"`
	File string `json:"file"`
	Line int    `json:"line"`
	Sig  string `json:"sig"`
}

func main() {
	root := os.Args[1]
	dirs := []string{".", "packet", "packet/adaptationfield", "psi", "pes", "ebp", "scte35"}
	var out []item
	for _, d := range dirs {
		fset := token.NewFileSet()
		pkgs, err := parser.ParseDir(fset, filepath.Join(root, d), func(fi os.FileInfo) bool {
			return !strings.HasSuffix(fi.Name(), "_test.go")
		}, 0)
		if err != nil {
			panic(err)
		}
		for _, p := range pkgs {
			pkgName := d
			if d == "." {
				pkgName = "gots"
			}
			for fn, f := range p.Files {
				rel, _ := filepath.Rel(root, fn)
				for _, decl := range f.Decls {
					switch x := decl.(type) {
					case *ast.FuncDecl:
						if !x.Name.IsExported() {
							continue
						}
						recv := ""
						kind := "func"
						if x.Recv != nil {
							kind = "method"
							recv = typeName(x.Recv.List[0].Type)
							if !ast.IsExported(strings.TrimPrefix(recv, "*")) {
								kind = "method-unexported-recv"
							}
						}
						out = append(out, item{pkgName, kind, recv, x.Name.Name, rel, fset.Position(x.Pos()).Line, sig(fset, x.Type)})
					case *ast.GenDecl:
						for _, s := range x.Specs {
							switch y := s.(type) {
							case *ast.ValueSpec:
								k := "var"
								if x.Tok == token.CONST {
									k = "const"
								}
								for _, n := range y.Names {
									if n.IsExported() {
										out = append(out, item{pkgName, k, "", n.Name, rel, fset.Position(n.Pos()).Line, ""})
									}
								}
							case *ast.TypeSpec:
								if !y.Name.IsExported() {
									// exported fields of an unexported struct are reachable through values the API hands out
									if st, ok := y.Type.(*ast.StructType); ok {
										for _, m := range st.Fields.List {
											for _, n := range m.Names {
												if n.IsExported() {
													out = append(out, item{pkgName, "field-unexported-type", y.Name.Name, n.Name, rel, fset.Position(n.Pos()).Line, sig(fset, m.Type)})
												}
											}
										}
									}
									continue
								}
								out = append(out, item{pkgName, "type", "", y.Name.Name, rel, fset.Position(y.Pos()).Line, kindOf(y.Type)})
								if it, ok := y.Type.(*ast.InterfaceType); ok {
									for _, m := range it.Methods.List {
										for _, n := range m.Names {
											if n.IsExported() {
												out = append(out, item{pkgName, "ifacemethod", y.Name.Name, n.Name, rel, fset.Position(n.Pos()).Line, sig(fset, m.Type)})
											}
										}
										if len(m.Names) == 0 {
											out = append(out, item{pkgName, "embed", y.Name.Name, typeName(m.Type), rel, fset.Position(m.Pos()).Line, ""})
										}
									}
								}
								if st, ok := y.Type.(*ast.StructType); ok {
									for _, m := range st.Fields.List {
										for _, n := range m.Names {
											if n.IsExported() {
												out = append(out, item{pkgName, "field", y.Name.Name, n.Name, rel, fset.Position(n.Pos()).Line, sig(fset, m.Type)})
											}
										}
									}
								}
							}
						}
					}
				}
			}
		}
	}
	sort.Slice(out, func(i, j int) bool {
		a, b := out[i], out[j]
		if a.Pkg != b.Pkg {
			return a.Pkg < b.Pkg
		}
		if a.File != b.File {
			return a.File < b.File
		}
		return a.Line < b.Line
	})
	for _, it := range out {
		b, _ := json.Marshal(it)
		fmt.Println(string(b))
	}
}

func typeName(e ast.Expr) string {
	switch x := e.(type) {
	case *ast.StarExpr:
		return "*" + typeName(x.X)
	case *ast.Ident:
		return x.Name
	case *ast.SelectorExpr:
		return typeName(x.X) + "." + x.Sel.Name
	}
	return "?"
}
func kindOf(e ast.Expr) string {
	switch e.(type) {
	case *ast.InterfaceType:
		return "interface"
	case *ast.StructType:
		return "struct"
	}
	var b bytes.Buffer
	printer.Fprint(&b, token.NewFileSet(), e)
	return b.String()
}
func sig(fset *token.FileSet, e ast.Expr) string {
	var b bytes.Buffer
	printer.Fprint(&b, fset, e)
	return strings.Join(strings.Fields(b.String()), " ")
}
