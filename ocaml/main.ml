(* modelexec: line protocol around the Coq-extracted model (DESIGN.md appendix A).
   request :  <op> <val>*        reply : <val>
   val     :  -?[0-9]+ | x[0-9a-f]* | [ <val>* ]                                   *)
module M = Model

let rec pos_of_z (z : Z.t) : M.positive =
  if Z.equal z Z.one then M.XH
  else if Z.is_even z then M.XO (pos_of_z (Z.shift_right z 1))
  else M.XI (pos_of_z (Z.shift_right z 1))
let rec z_of_pos = function
  | M.XH -> Z.one
  | M.XO q -> Z.shift_left (z_of_pos q) 1
  | M.XI q -> Z.succ (Z.shift_left (z_of_pos q) 1)
let coqz_of_z (z : Z.t) : M.z =
  let s = Z.sign z in
  if s = 0 then M.Z0 else if s > 0 then M.Zpos (pos_of_z z) else M.Zneg (pos_of_z (Z.neg z))
let z_of_coqz = function M.Z0 -> Z.zero | M.Zpos p -> z_of_pos p | M.Zneg p -> Z.neg (z_of_pos p)
let n_of_int (i : int) : M.n = if i = 0 then M.N0 else M.Npos (pos_of_z (Z.of_int i))
let int_of_n = function M.N0 -> 0 | M.Npos p -> Z.to_int (z_of_pos p)

let byte_tab = Array.init 256 n_of_int
let hexval c = match c with
  | '0'..'9' -> Char.code c - 48 | 'a'..'f' -> Char.code c - 87 | 'A'..'F' -> Char.code c - 55
  | _ -> failwith "hex"
let bytes_of_hex (s : string) (from : int) : M.n list =
  let n = (String.length s - from) / 2 in
  let rec go i acc = if i < 0 then acc
    else go (i - 1) (byte_tab.(hexval s.[from + 2*i] * 16 + hexval s.[from + 2*i + 1]) :: acc) in
  go (n - 1) []
let hexd = "0123456789abcdef"
let rec native_of_coq_string = function
  | M.EmptyString -> ""
  | M.String (M.Ascii (b0,b1,b2,b3,b4,b5,b6,b7), r) ->
    let v = List.fold_right (fun b acc -> acc * 2 + (if b then 1 else 0)) [b0;b1;b2;b3;b4;b5;b6;b7] 0 in
    String.make 1 (Char.chr v) ^ native_of_coq_string r

let rec parse_vals (toks : string list) : M.val0 list * string list =
  match toks with
  | [] -> ([], [])
  | "]" :: rest -> ([], "]" :: rest)
  | "[" :: rest ->
    let (inner, rest') = parse_vals rest in
    (match rest' with
     | "]" :: rest'' -> let (more, r) = parse_vals rest'' in (M.VL inner :: more, r)
     | _ -> failwith "unbalanced")
  | t :: rest ->
    let v = if String.length t > 0 && t.[0] = 'x' then M.VB (bytes_of_hex t 1)
      else M.VI (coqz_of_z (Z.of_string t)) in
    let (more, r) = parse_vals rest in (v :: more, r)

let rec print_val (b : Buffer.t) (v : M.val0) : unit =
  match v with
  | M.VI z -> Buffer.add_string b (Z.to_string (z_of_coqz z))
  | M.VB l -> Buffer.add_char b 'x';
    List.iter (fun n -> let i = int_of_n n in
                if i > 255 then Buffer.add_string b "!!" else begin
                Buffer.add_char b hexd.[i lsr 4]; Buffer.add_char b hexd.[i land 15] end) l
  | M.VL l -> Buffer.add_char b '[';
    List.iteri (fun i x -> if i > 0 then Buffer.add_char b ' '; print_val b x) l;
    Buffer.add_char b ']'

let () =
  let tab = Hashtbl.create 256 in
  List.iter (fun (name, f) -> Hashtbl.replace tab (native_of_coq_string name) f) M.all_ops;
  if Array.length Sys.argv > 1 && Sys.argv.(1) = "--list" then begin
    Hashtbl.iter (fun k _ -> print_endline k) tab; exit 0 end;
  let out = Buffer.create 65536 in
  (try while true do
    let line = input_line stdin in
    Buffer.clear out;
    (try
      let spaced = Buffer.create (String.length line + 16) in
      String.iter (fun c -> if c = '[' || c = ']' then begin
          Buffer.add_char spaced ' '; Buffer.add_char spaced c; Buffer.add_char spaced ' ' end
        else Buffer.add_char spaced c) line;
      let toks = List.filter (fun s -> s <> "") (String.split_on_char ' ' (Buffer.contents spaced)) in
      (match toks with
       | [] -> Buffer.add_string out "[-8888]"
       | name :: rest ->
         (match Hashtbl.find_opt tab name with
          | None -> Buffer.add_string out "[-8888]"
          | Some f ->
            let (args, left) = parse_vals rest in
            if left <> [] then Buffer.add_string out "[-9999]" else print_val out (f args)))
    with Stack_overflow -> Buffer.clear out; Buffer.add_string out "[7]"
       | _ -> Buffer.clear out; Buffer.add_string out "[-9999]");
    print_string (Buffer.contents out); print_newline ()
  done with End_of_file -> ())
